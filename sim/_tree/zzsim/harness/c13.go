package main

import (
	"bytes"
	"encoding/json"
	"fmt"
	"os"
	"regexp"
	"sort"
	"strconv"
	"strings"
	"time"

	"github.com/llir/llvm/ir"
	"github.com/llir/llvm/ir/constant"
	"github.com/llir/llvm/ir/metadata"
	"github.com/llir/llvm/ir/types"
	"github.com/llir/llvm/ir/value"
	"github.com/llir/llvm/zzsim/simrt"
)

// C13 — a module can be printed from many goroutines at once.
//
// 2–4 simulator tasks print the same module / function / block under a
// tape-chosen statement-level interleaving. Oracle: no data race between two
// tasks (Go race detector, which sees only the program's own synchronisation),
// every returned text equals the text the same call returns sequentially on an
// identically built twin, no panic, no deadlock, bounded steps.

func init() {
	props["C13"] = &propImpl{search: c13Search, replay: c13Replay, candidates: c13Candidates}
}

// Call is one printing / query call of a task.
type Call struct {
	K int `json:"k"`
	A int `json:"a,omitempty"`
	B int `json:"b,omitempty"`
	C int `json:"c,omitempty"`
}

var callNames = []string{"m.String", "m.WriteTo", "f.LLString", "b.LLString", "inst.LLString", "v.String", "v.Ident", "v.Type", "g.LLString", "f.String+Ident+Type", "term.LLString",
	"metadata def Ident+LLString", "alias/ifunc LLString", "typedef String+LLString", "operands String", "param LLString", "named metadata LLString", "m.WriteTo(plain io.Writer)", "m.WriteTo(writer that stalls until the other printers are done)", "m.WriteTo(*os.File)", "m.WriteTo(closed *os.File)"}

func (c Call) String() string {
	return fmt.Sprintf("%s(%d,%d,%d)", callNames[c.K%len(callNames)], c.A, c.B, c.C)
}

// C13Scenario is one run.
type C13Scenario struct {
	Module string   `json:"module"`
	Start  string   `json:"start"` // fresh | printed | stale | func-printed | file-failed
	Tasks  [][]Call `json:"tasks"`
	Tape   *Tape    `json:"tape"`
}

// doCall performs c on m and returns the text it produced ("" + false if the
// call does not apply to this module).
// doCallP is doCall for states in which a print may legitimately panic (an
// unfinished module): the panic is the outcome of the call.
func doCallP(m *ir.Module, c Call, recoverPanics bool) (s string, ok bool) {
	if !recoverPanics {
		return doCall(m, c)
	}
	if pan, msg := protect(func() { s, ok = doCall(m, c) }); pan {
		return "PANIC: " + normDigits(clip(msg, 200)), true
	}
	return s, ok
}

func doCall(m *ir.Module, c Call) (string, bool) {
	fn := func() *ir.Func {
		if len(m.Funcs) == 0 {
			return nil
		}
		return m.Funcs[c.A%len(m.Funcs)]
	}
	blk := func() *ir.Block {
		f := fn()
		if f == nil || len(f.Blocks) == 0 {
			return nil
		}
		return f.Blocks[c.B%len(f.Blocks)]
	}
	inst := func() ir.Instruction {
		b := blk()
		if b == nil || len(b.Insts) == 0 {
			return nil
		}
		return b.Insts[c.C%len(b.Insts)]
	}
	switch c.K % len(callNames) {
	case 0:
		return m.String(), true
	case 1:
		var buf bytes.Buffer
		n, err := m.WriteTo(&buf)
		return fmt.Sprintf("n=%d err=%v\n%s", n, err, buf.String()), true
	case 2:
		if f := fn(); f != nil {
			return f.LLString(), true
		}
	case 3:
		if b := blk(); b != nil {
			return b.LLString(), true
		}
	case 4:
		if in := inst(); in != nil {
			return in.LLString(), true
		}
	case 5:
		if v, ok := inst().(value.Value); ok {
			return v.String(), true
		}
	case 6:
		if v, ok := inst().(value.Value); ok {
			return v.Ident(), true
		}
	case 7:
		if v, ok := inst().(value.Value); ok {
			return v.Type().String(), true
		}
	case 8:
		if len(m.Globals) > 0 {
			return m.Globals[c.A%len(m.Globals)].LLString(), true
		}
	case 9:
		if f := fn(); f != nil {
			return f.String() + " " + f.Ident() + " " + f.Type().String(), true
		}
	case 10:
		if b := blk(); b != nil && b.Term != nil {
			return b.Term.LLString(), true
		}
	case 11:
		if len(m.MetadataDefs) > 0 {
			md := m.MetadataDefs[c.A%len(m.MetadataDefs)]
			return md.Ident() + " = " + md.LLString(), true
		}
	case 12:
		if len(m.Aliases) > 0 {
			return m.Aliases[c.A%len(m.Aliases)].LLString(), true
		}
		if len(m.IFuncs) > 0 {
			return m.IFuncs[c.A%len(m.IFuncs)].LLString(), true
		}
	case 13:
		if len(m.TypeDefs) > 0 {
			t := m.TypeDefs[c.A%len(m.TypeDefs)]
			return t.String() + " = " + t.LLString(), true
		}
	case 14:
		if in := inst(); in != nil {
			var sb strings.Builder
			for _, op := range in.Operands() {
				if *op != nil {
					sb.WriteString((*op).String())
					sb.WriteString("; ")
				}
			}
			return sb.String(), true
		}
	case 15:
		if f := fn(); f != nil && len(f.Params) > 0 {
			return f.Params[c.B%len(f.Params)].LLString(), true
		}
	case 19:
		// A real file (code may take another path for *os.File: buffering, ReadFrom,
		// copy_file_range); what arrives in the file is what counts.
		f, err := os.CreateTemp("", "c13-*.ll")
		if err != nil {
			panic("harness: cannot create temp file: " + err.Error())
		}
		name := f.Name()
		n, werr := m.WriteTo(f)
		f.Close()
		b, _ := os.ReadFile(name)
		os.Remove(name)
		return fmt.Sprintf("n=%d err=%v\n%s", n, werr, b), true
	case 20:
		// A file that has been closed: every Write fails (the error path of
		// whatever the library does for files).
		f, err := os.CreateTemp("", "c13-*.ll")
		if err != nil {
			panic("harness: cannot create temp file: " + err.Error())
		}
		name := f.Name()
		f.Close()
		n, werr := m.WriteTo(f)
		os.Remove(name)
		return fmt.Sprintf("n=%d failed=%v", n, werr != nil), true
	case 18:
		// A writer that, at one of its Write calls, does not return before the
		// printers of the other tasks have finished (a pipe whose reader is busy
		// printing the same module, a logger behind the same service): no printer
		// may hold a lock the others need while it is inside Write.
		w := &stallWriter{at: c.B % 40}
		if c.A%2 == 1 {
			w.at = c.B % 400
		}
		n, err := m.WriteTo(w)
		return fmt.Sprintf("n=%d err=%v\n%s", n, err, w.b.String()), true
	case 17:
		// A writer that is nothing but an io.Writer (not *bytes.Buffer,
		// *strings.Builder, *bufio.Writer, *os.File).
		w := &plainWriter{}
		n, err := m.WriteTo(w)
		return fmt.Sprintf("n=%d err=%v\n%s", n, err, w.b.String()), true
	case 16:
		if len(m.NamedMetadataDefs) > 0 {
			var names []string
			for n := range m.NamedMetadataDefs {
				names = append(names, n)
			}
			sort.Strings(names)
			nd := m.NamedMetadataDefs[names[c.A%len(names)]]
			return nd.Ident() + " = " + nd.LLString(), true
		}
	}
	return "", false
}

// stallWriter blocks in its at-th Write until c13Gate is closed (nil gate: never
// blocks; that is how the sequential reference runs it).
type stallWriter struct {
	b     strings.Builder
	at    int
	calls int
}

func (w *stallWriter) Write(p []byte) (int, error) {
	if w.calls == w.at && c13Gate != nil {
		simrt.Recv(-1, (<-chan struct{})(c13Gate))
	}
	w.calls++
	return w.b.Write(p)
}

// c13Gate is closed when every task without a stalling writer has finished.
var c13Gate chan struct{}

type plainWriter struct{ b strings.Builder }

func (w *plainWriter) Write(p []byte) (int, error) { return w.b.Write(p) }

func applyStart(m *ir.Module, start string) {
	switch start {
	case "unfinished":
		// Under construction: the last block of the first function body has no
		// terminator yet. Every print of it (or of what contains it) fails the same
		// way, for a lone caller and for concurrent callers alike, and leaves
		// nothing behind.
		for _, f := range m.Funcs {
			if n := len(f.Blocks); n > 0 {
				f.Blocks[n-1].Term = nil
				break
			}
		}
	case "md-clash":
		// Two metadata definitions carry the same explicit ID: every print of the
		// module fails the same way ("already in use"), for a lone caller and for
		// concurrent callers alike, and leaves nothing behind (no lock either).
		for i, md := range m.MetadataDefs {
			md.SetID(int64(i))
		}
		for len(m.MetadataDefs) < 2 {
			t := &metadata.Tuple{MetadataID: metadata.MetadataID(len(m.MetadataDefs))}
			t.Fields = append(t.Fields, &metadata.String{Value: "clash"})
			m.MetadataDefs = append(m.MetadataDefs, t)
		}
		m.MetadataDefs[len(m.MetadataDefs)-1].SetID(0)
	case "printed":
		_ = m.String()
	case "func-printed":
		if len(m.Funcs) > 0 {
			_ = m.Funcs[0].LLString()
		}
	case "file-failed":
		// Printed once, and one write into a file has failed (the file was
		// closed): whatever the library keeps for file destinations has been
		// through its error path before the printers start.
		_ = m.String()
		doCall(m, Call{K: 20})
	case "locals-stale":
		// Printed once, then edited inside function bodies only: the numbers of
		// unnamed globals, functions and metadata are settled (a function printer
		// reads them while a module printer confirms them), those of locals have
		// to be assigned again, by whichever printer of the function comes first.
		_ = m.String()
		staleLocals(m)
	case "stale":
		// Printed once, then extended: the IDs left by the print are stale and
		// the next print has to renumber (writes under the mutexes again).
		_ = m.String()
		staleEdit(m)
	}
}

// staleEdit extends an already printed module so that the numbers of unnamed
// globals, functions and locals all shift.
func staleEdit(m *ir.Module) {
	staleLocals(m)
	// A parameter appended to an existing function through the exported field
	// (the function type computed at creation does not know it).
	for i := len(m.Funcs) - 1; i >= 0; i-- {
		if f := m.Funcs[i]; len(f.Blocks) > 0 && !f.Sig.Variadic {
			f.Params = append(f.Params, ir.NewParam("late.param", types.I32))
			break
		}
	}
	// An optional field assigned after construction (the cached pointer type of
	// the global keeps the address space it had when it was computed).
	if n := len(m.Globals); n > 0 {
		m.Globals[n-1].AddrSpace = 3
	}
	g := ir.NewGlobalDef("", constant.NewInt(types.I32, 42))
	m.Globals = append([]*ir.Global{g}, m.Globals...)
}

// staleLocals edits the function bodies of an already printed module so that
// the numbers of their unnamed locals shift.
func staleLocals(m *ir.Module) {
	for fi, f := range m.Funcs {
		if len(f.Blocks) == 0 {
			continue
		}
		b := f.Blocks[0]
		switch fi % 3 {
		case 0:
			// a new unnamed value in front of everything
			in := ir.NewAdd(constant.NewInt(types.I32, 1), constant.NewInt(types.I32, 2))
			b.Insts = append([]ir.Instruction{in}, b.Insts...)
		case 1:
			// the first numbered value gets a name: everything after it moves down
			for _, in := range b.Insts {
				if n, ok := in.(value.Named); ok && isUnnamed(n) && !n.Type().Equal(types.Void) {
					n.SetName("stale.named")
					break
				}
			}
		case 2:
			// the first named block or parameter loses its name: everything moves up
			done := false
			for _, p := range f.Params {
				if !p.IsUnnamed() {
					p.SetName("")
					done = true
					break
				}
			}
			if !done {
				for _, bb := range f.Blocks {
					if !bb.IsUnnamed() {
						bb.SetName("")
						break
					}
				}
			}
		}
	}
}

type c13Outcome struct {
	class, sig, detail string
	skip               string
	stats              simrt.Stats
	trace              []simrt.Switch
}

var (
	reRaceHdr  = regexp.MustCompile(`(?m)^(Write|Read|Previous write|Previous read|Atomic write|Atomic read|Previous atomic write|Previous atomic read) at 0x[0-9a-f]+ by (main goroutine|goroutine \d+):\n  (\S+)\(\)\n      (\S+):(\d+)`)
	reCreated  = regexp.MustCompile(`(?m)^Goroutine \d+ \((running|finished)\) created at:\n((?:  .*\n      .*\n)+)`)
	reTreePath = regexp.MustCompile(`^.*?/tree/`)
)

// raceSignature extracts the pair of access sites of the first report in log.
func raceSignature(log string) (sig string, bothTasks bool, first string) {
	i := strings.Index(log, "WARNING: DATA RACE")
	if i < 0 {
		return "", false, ""
	}
	rest := log[i:]
	if j := strings.Index(rest[1:], "=================="); j >= 0 {
		rest = rest[:j+1]
	}
	first = rest
	ms := reRaceHdr.FindAllStringSubmatch(rest, -1)
	var sites []string
	mainInvolved := false
	for _, m := range ms {
		if m[2] == "main goroutine" {
			mainInvolved = true
		}
		fn := m[3]
		if k := strings.LastIndex(fn, "/"); k >= 0 {
			fn = fn[k+1:]
		}
		file := reTreePath.ReplaceAllString(m[4], "")
		kind := "read"
		if strings.Contains(strings.ToLower(m[1]), "write") {
			kind = "write"
		}
		sites = append(sites, fmt.Sprintf("%s %s %s:%s", kind, fn, file, m[5]))
	}
	sort.Strings(sites)
	sig = strings.Join(sites, " <-> ")
	created := reCreated.FindAllStringSubmatch(rest, -1)
	nt := 0
	for _, c := range created {
		if strings.Contains(c[2], "simrt.RunTasks") || strings.Contains(c[2], "simrt.Go") {
			nt++
		}
	}
	bothTasks = !mainInvolved && nt >= 2
	return sig, bothTasks, first
}

// c13Run executes one scenario.
func c13Run(sc *C13Scenario) *c13Outcome {
	out := &c13Outcome{}
	src := findSource(sc.Module)
	if src == nil {
		out.skip = "unknown module"
		return out
	}
	simrt.Load((&Tape{}).config())
	var m, twin *ir.Module
	var err error
	if pan, msg := protect(func() {
		simCall(func() {
			m, err = src.Build()
			if err == nil {
				twin, _ = src.Build()
			}
		})
	}); pan {
		err = fmt.Errorf("panic while building the module: %s", msg)
	}
	if err != nil {
		out.skip = "module rejected by the parser"
		return out
	}
	// The module under test is put into its start state; the twin stays untouched
	// until the concurrent run is over: a sequential print before the run would
	// warm up every lazily initialised piece of process-wide state (lookup
	// tables, interned strings) and hide first-use problems from the printers.
	if pan, msg := protect(func() { simCall(func() { applyStart(m, sc.Start) }) }); pan {
		out.skip = "sequential print panics (not C13's business): " + clip(normDigits(msg), 80)
		return out
	}
	got := make([][]string, len(sc.Tasks))
	fns := make([]func(), len(sc.Tasks))
	// Stalling writers wait for the tasks that have none.
	var free int64
	stalls := func(calls []Call) bool {
		for _, c := range calls {
			if c.K%len(callNames) == 18 {
				return true
			}
		}
		return false
	}
	for _, calls := range sc.Tasks {
		if !stalls(calls) {
			free++
		}
	}
	c13Gate = nil
	if free > 0 && free < int64(len(sc.Tasks)) {
		c13Gate = make(chan struct{})
	}
	gate := c13Gate
	defer func() { c13Gate = nil }()
	for i := range sc.Tasks {
		i := i
		calls := sc.Tasks[i]
		got[i] = make([]string, len(calls))
		fns[i] = func() {
			for j, c := range calls {
				s, _ := doCallP(m, c, sc.Start == "unfinished" || sc.Start == "md-clash")
				got[i][j] = s
			}
			if gate != nil && !stalls(calls) {
				if simrt.SharedAdd(&free, -1) == 0 {
					simrt.Close(-1, (chan<- struct{})(gate))
				}
			}
		}
	}
	curScenario = sc
	race0 := raceLogSize()
	runRace0 = race0
	defer func() { runRace0 = -1 }()
	simrt.Load(sc.Tape.configKeep())
	simrt.SeamsOn(false, false)
	res := simrt.RunTasks(fns, 60*time.Second)
	out.stats = simrt.Snapshot()
	out.trace = simrt.Trace()
	// Verdicts, most specific first.
	if raceLogSize() > race0 {
		log := raceLogFrom(race0, 1<<20)
		sig, both, first := raceSignature(log)
		if !both {
			out.class, out.sig, out.detail = "harness-race", sig, "race report that does not involve two simulator tasks:\n"+first
			return out
		}
		out.class, out.sig, out.detail = "race", sig, first
		return out
	}
	// Reference: the same calls, sequentially, on the twin in the same start state.
	c13Gate = nil
	expected := make([][]string, len(sc.Tasks))
	applies := make([][]bool, len(sc.Tasks))
	simrt.Load((&Tape{}).config())
	if pan, msg := protect(func() {
		simCall(func() {
			applyStart(twin, sc.Start)
			if sc.Start != "printed" && sc.Start != "locals-stale" {
				// All tasks print the same receiver; the lone sequential call sequence
				// is computed once per distinct call list (module prints through
				// String and WriteTo give the same text, and printing twice is
				// idempotent, so the order on the twin does not matter).
				memo := map[string][]string{}
				memoOK := map[string][]bool{}
				for i, t := range sc.Tasks {
					key := fmt.Sprint(t)
					if _, ok := memo[key]; !ok {
						var ref []string
						var app []bool
						for _, c := range t {
							s, ok := doCallP(twin, c, sc.Start == "unfinished" || sc.Start == "md-clash")
							ref = append(ref, s)
							app = append(app, ok)
						}
						memo[key], memoOK[key] = ref, app
					}
					expected[i], applies[i] = memo[key], memoOK[key]
				}
			} else {
				for i, t := range sc.Tasks {
					for _, c := range t {
						s, ok := doCall(twin, c)
						expected[i] = append(expected[i], s)
						applies[i] = append(applies[i], ok)
					}
				}
			}
		})
	}); pan {
		out.skip = "sequential print of the twin panics (not C13's business): " + clip(normDigits(msg), 80)
		return out
	}
	for i, r := range res {
		if r.Panic != nil {
			msg := fmt.Sprint(r.Panic)
			out.class, out.sig = "panic", normDigits(clip(msg, 160))
			out.detail = fmt.Sprintf("task %d panicked: %s\n%s", i, msg, clip(r.Stack, 1500))
			return out
		}
	}
	for i := range sc.Tasks {
		for j := range sc.Tasks[i] {
			if !applies[i][j] {
				continue
			}
			if got[i][j] != expected[i][j] {
				out.class = "text"
				out.sig = callNames[sc.Tasks[i][j].K%len(callNames)]
				out.detail = fmt.Sprintf("task %d call %d %s returned text that differs from the sequential call on the twin: %s", i, j, sc.Tasks[i][j], firstDiff(got[i][j], expected[i][j]))
				return out
			}
		}
	}
	// Aftermath: what concurrent printers leave behind in the module must be what
	// sequential printers leave behind: extend both modules the same way and
	// print them sequentially.
	{
		var aft, aftTwin string
		simrt.Load((&Tape{}).configKeep())
		panT, _ := protect(func() { simCall(func() { staleEdit(twin); aftTwin = twin.String() }) })
		if !panT {
			panM, msg := protect(func() { simCall(func() { staleEdit(m); aft = m.String() }) })
			if panM {
				out.class, out.sig = "panic", "print after an edit that follows the concurrent prints: "+normDigits(clip(msg, 120))
				out.detail = "after the concurrent prints the module was extended and printed sequentially; that print panics, the same steps on the sequentially printed twin do not: " + msg
				return out
			}
			if aft != aftTwin {
				out.class, out.sig = "text", "print after an edit that follows the concurrent prints"
				out.detail = "after the concurrent prints the module was extended (unnamed global in front, values named/un-named) and printed sequentially: the text differs from the same steps on the sequentially printed twin: " + firstDiff(aft, aftTwin)
				return out
			}
		}
	}
	// Module prints are also compared with the text a sequential print gives in
	// ANOTHER process (the reference worker): process-wide state corrupted by the
	// concurrent printers taints the in-process twin as well.
	if want, ok := c13CrossRef(sc.Module, sc.Start); ok && sc.Start != "unfinished" && sc.Start != "md-clash" {
		for i := range sc.Tasks {
			for j, c := range sc.Tasks[i] {
				k := c.K % len(callNames)
				if k != 0 && k != 1 && k != 17 {
					continue
				}
				text := got[i][j]
				if k != 0 {
					if nl := strings.IndexByte(text, '\n'); nl >= 0 {
						text = text[nl+1:]
					}
				}
				if hex64(hash64(text)) != want {
					out.class = "text"
					out.sig = callNames[k] + " (cross-process reference)"
					out.detail = fmt.Sprintf("task %d call %d %s returned text that equals the in-process sequential twin but differs from the sequential print of the same module in another process (process-wide state was corrupted); first lines: %s", i, j, c, clip(text, 300))
					return out
				}
			}
		}
	}
	return out
}

// C13 cross-process reference: module source -> start state -> hash of String().
var c13Ref map[string]map[string]string

func c13CrossRef(module, start string) (string, bool) {
	if c13Ref == nil {
		if *flagRefFile == "" {
			return "", false
		}
		b, err := os.ReadFile(*flagRefFile)
		if err != nil {
			return "", false
		}
		var wrap struct {
			Table map[string]map[string]string `json:"table"`
		}
		if json.Unmarshal(b, &wrap) != nil || wrap.Table == nil {
			return "", false
		}
		c13Ref = wrap.Table
	}
	key := "fresh"
	if start == "stale" || start == "locals-stale" {
		key = start
	}
	h, ok := c13Ref[module][key]
	return h, ok
}

// c13MakeRef prints every module source sequentially (own process).
func c13MakeRef() {
	table := map[string]map[string]string{}
	skip := map[int]bool{}
	for _, f := range strings.Split(*flagSkip, ",") {
		if n, err := strconv.Atoi(strings.TrimSpace(f)); err == nil {
			skip[n] = true
		}
	}
	for si, src := range moduleSources(*flagSeed, *flagTier) {
		noteProgress(int64(si))
		if skip[si] {
			// the sequential print of this module killed or blocked an earlier
			// reference process: no entry
			continue
		}
		src := src
		entry := map[string]string{}
		protect(func() {
			simrt.Load((&Tape{}).config())
			simCall(func() {
				m, err := src.Build()
				if err != nil {
					return
				}
				entry["fresh"] = hex64(hash64(m.String()))
				staleEdit(m)
				entry["stale"] = hex64(hash64(m.String()))
				if m2, err := src.Build(); err == nil {
					_ = m2.String()
					staleLocals(m2)
					entry["locals-stale"] = hex64(hash64(m2.String()))
				}
			})
		})
		if len(entry) >= 2 && entry["stale"] != "" {
			table[src.Name] = entry
		}
	}
	emit(outRec{T: "ref", Property: "C13", Extra: map[string]interface{}{"table": table}})
}

var gapChoices = []int{2, 3, 5, 8, 16, 40, 100, 400, 2000}
var edgeChoices = []int{0, 10, 30, 60, 100}

func c13GenScenario(r *rng, srcs []*moduleSource) *C13Scenario {
	sc := &C13Scenario{}
	src := srcs[r.intn(len(srcs))]
	stressed := false
	if r.chance(1, 5) {
		// Stress modules (hundreds of distinct identifiers / constants / functions:
		// whatever is cached or hashed per distinct value meets growth, collisions
		// and eviction there) get an eighth of the runs.
		var stress []*moduleSource
		for _, s := range srcs {
			if strings.Contains(s.Name, "print/many") {
				stress = append(stress, s)
			}
		}
		if len(stress) > 0 {
			src = stress[r.intn(len(stress))]
			stressed = true
		}
	}
	sc.Module = src.Name
	switch x := r.intn(12); {
	case x < 5:
		sc.Start = "fresh"
		if r.chance(1, 10) {
			sc.Start = "unfinished"
			if r.chance(1, 2) {
				sc.Start = "md-clash"
			}
		}
	case x < 8:
		sc.Start = "printed"
		if r.chance(1, 3) {
			// printed once, then edited inside function bodies only: global and
			// metadata numbering are settled, local numbering is not
			sc.Start = "locals-stale"
		}
	case x < 11:
		sc.Start = "stale"
	default:
		sc.Start = "func-printed"
	}
	if nativeGoroutines && (sc.Start == "unfinished" || sc.Start == "md-clash") {
		sc.Start = "fresh"
	}
	nt := 2 + r.intn(3)
	crowd := r.chance(1, 8)
	if crowd {
		// A crowd of printers (bounded resources such as semaphores, worker pools
		// sized from the number of callers, per-P caches only show under many
		// simultaneous callers).
		nt = 8 + r.intn(9)
	}
	if (sc.Start == "printed" || sc.Start == "locals-stale") && !crowd {
		for i := 0; i < nt; i++ {
			var calls []Call
			for j := 0; j < 1+r.intn(3); j++ {
				k := r.intn(len(callNames))
				if r.chance(1, 2) || sc.Start == "locals-stale" {
					k = []int{0, 1, 2, 17}[r.intn(4)] // module and function prints are where the locks are
				}
				calls = append(calls, Call{K: k, A: r.intn(64), B: r.intn(64), C: r.intn(64)})
			}
			sc.Tasks = append(sc.Tasks, calls)
		}
	} else {
		// Same receiver, same calls for every task.
		var calls []Call
		k := []int{0, 0, 0, 1, 17, 2, 2, 3}[r.intn(8)]
		if crowd {
			k = []int{0, 0, 1, 17, 2}[r.intn(5)]
		}
		if sc.Start == "func-printed" {
			k = []int{0, 0, 1, 17}[r.intn(4)]
		}
		if strings.HasSuffix(sc.Module, ":lit") && k == 3 {
			// Literal-built instructions compute their cached Typ at the first
			// Type() query; module and function printers do that under Func.mu,
			// a block printer does not (known finding K1, pinned by a tape of its
			// own): from a state in which types may still be unset, literal-built
			// modules are printed through the module and the function only.
			k = 2
		}
		c := Call{K: k, A: r.intn(64), B: r.intn(64), C: r.intn(64)}
		calls = append(calls, c)
		if r.chance(1, 3) {
			// the same call again (a crowd sometimes repeats it several times:
			// estimates and adaptive state need a few rounds to drift)
			calls = append(calls, c)
			if crowd && r.chance(1, 2) {
				calls = append(calls, c, c)
			}
		}
		for i := 0; i < nt; i++ {
			mine := calls
			if (k <= 1 || k == 17) && r.chance(1, 2) {
				// The same receiver (the module), printed through another entry point.
				alt := []int{0, 1, 17}[r.intn(3)]
				mine = make([]Call, len(calls))
				for j, cc := range calls {
					cc.K = alt
					mine[j] = cc
				}
			}
			sc.Tasks = append(sc.Tasks, mine)
		}
	}
	if r.chance(1, 10) && (sc.Start == "printed" || sc.Start == "stale") {
		// Printers that write into real files; in half of these runs a write into a
		// closed file has failed before they start, and one of them may fail again.
		if r.chance(1, 2) {
			sc.Start = "file-failed"
		}
		for i := range sc.Tasks {
			sc.Tasks[i] = []Call{{K: 19}}
			if r.chance(1, 3) {
				sc.Tasks[i] = append(sc.Tasks[i], Call{K: 19})
			}
		}
		if r.chance(1, 3) {
			sc.Tasks[0] = append([]Call{{K: 20}}, sc.Tasks[0]...)
		}
	}
	moduleOnly := true
	for _, t := range sc.Tasks {
		for _, c := range t {
			if k := c.K % len(callNames); k != 0 && k != 1 && k != 17 && k != 19 && k != 20 {
				moduleOnly = false
			}
		}
	}
	if r.chance(1, 6) && len(sc.Tasks) >= 2 && (moduleOnly || sc.Start == "printed") {
		// One printer writes into a writer that stalls, at one of its Write calls,
		// until the other printers are done (same receiver: the module).
		sc.Tasks[0] = []Call{{K: 18, A: r.intn(2), B: r.intn(400)}}
	}
	if stressed && sc.Start == "printed" && r.chance(1, 2) {
		// ... and, once printed, each printer at functions of its own (what is keyed
		// by identifier is then asked for different identifiers at the same time).
		for i := range sc.Tasks {
			sc.Tasks[i] = nil
			for j, n := 0, 2+r.intn(4); j < n; j++ {
				sc.Tasks[i] = append(sc.Tasks[i], Call{K: 2, A: r.intn(1 << 12)})
			}
		}
	}
	meanGap := gapChoices[r.intn(len(gapChoices))]
	if stressed && r.chance(1, 2) {
		// On a module with hundreds of entities the printers should also be far
		// apart from each other (one at function 10 while another is at function
		// 300): long stretches between switches.
		meanGap = []int{5000, 20000, 80000}[r.intn(3)]
	}
	sc.Tape = genTape(r, TapeParams{NSched: 2048, MeanGap: meanGap, EdgePct: edgeChoices[r.intn(len(edgeChoices))], EarlyPct: 50, NPool: 512})
	// The step cap only has to catch a livelock; it grows with the amount of
	// printing the run does (a crowd repeating its calls on a 60 KB module needs
	// well over 20 M statements).
	total := 0
	for _, t := range sc.Tasks {
		total += len(t)
	}
	sc.Tape.StepCap = 30000000 * int64(total+1)
	return sc
}

func c13Search() {
	if *flagMode == "ref" {
		c13MakeRef()
		return
	}
	sum := newSummary()
	runsInProcess := 0
	srcs := moduleSources(*flagSeed, *flagTier)
	distinct := hashSet{}
	failures := 0
	for idx := *flagFrom; idx < *flagRuns; idx++ {
		if idx%shardN != shardI {
			continue
		}
		if overBudget() || failures >= *flagMaxFail {
			break
		}
		curIndex = idx
		noteProgress(idx)
		runSeed := derive(*flagSeed, fmt.Sprintf("C13/%d", idx))
		curSeed = runSeed
		if *flagMaxRuns > 0 && runsInProcess >= *flagMaxRuns {
			// Recycle the process: the first runs of a process are the ones that
			// meet never-initialised process-wide state.
			sum.Stopped = true
			sum.NextSeed = uint64(idx)
			break
		}
		runsInProcess++
		sc := c13GenScenario(newRNG(runSeed), srcs)
		o := c13Run(sc)
		if o.skip != "" {
			sum.Skipped[o.skip]++
			continue
		}
		sum.Runs++
		c13Count(sum, sc, o)
		if o.stats.Switches > 0 {
			distinct.add(o.stats.TraceHash ^ hash64(sc.Module, sc.Start))
		}
		if len(sum.Samples) < 3 && o.stats.Switches > 2 {
			sum.Samples = append(sum.Samples, map[string]interface{}{"seed": fmt.Sprint(runSeed), "module": sc.Module, "start": sc.Start, "tasks": fmt.Sprint(sc.Tasks),
				"switches": o.stats.Switches, "statements": o.stats.Steps, "blocked_on_mutex": o.stats.Blocked, "first_switches": traceStrings(o.trace, 6)})
		}
		if *flagSelf {
			emit(outRec{T: "event", Seed: runSeed, Detail: fmt.Sprintf("idx=%d trace=%016x steps=%d switches=%d blocked=%d class=%s sig=%s uncontrolled=%d", idx, o.stats.TraceHash, o.stats.Steps, o.stats.Switches, o.stats.Blocked, o.class, o.sig, o.stats.PermUncontrolled)})
		}
		if o.class != "" {
			failures++
			sum.Failures++
			trimTape(sc.Tape, o.stats)
			emit(outRec{T: "fail", Property: "C13", Seed: runSeed, Class: o.class, Sig: o.sig, Detail: o.detail, Replay: sc,
				Extra: map[string]interface{}{"trace": traceStrings(o.trace, 40), "history": historyInfo(idx)}})
			if o.class == "race" || o.class == "harness-race" {
				// The detector de-duplicates reports per process: stop and let the
				// driver continue the remaining seeds in a fresh process.
				sum.Stopped = true
				sum.NextSeed = uint64(idx + shardN)
				break
			}
		}
	}
	sum.Distinct = distinct.list()
	emit(outRec{T: "summary", Property: "C13", Summary: sum})
}

func c13Count(sum *Summary, sc *C13Scenario, o *c13Outcome) {
	s := o.stats
	sum.Counters["runs/start="+sc.Start]++
	if strings.HasPrefix(sc.Module, "gen:") {
		sum.Counters["runs/constructed module"]++
		if strings.HasSuffix(sc.Module, ":lit") {
			sum.Counters["runs/constructed module with literal-built instructions (Typ unset)"]++
		}
	} else {
		sum.Counters["runs/parsed module"]++
	}
	sum.Counters[fmt.Sprintf("runs/%d tasks", len(sc.Tasks))]++
	if len(sc.Tasks) >= 8 {
		sum.Probes["8 or more simultaneous printers"]++
	}
	if s.ProcQueries > 0 {
		sum.Counters["runtime.GOMAXPROCS/NumCPU queries answered with the simulated value"] += s.ProcQueries
	}
	sum.Counters["statements executed under the scheduler"] += s.Steps
	sum.Counters["context switches"] += s.Switches
	sum.Counters["context switches at lock/unlock edges"] += s.LockEdgeSwitches
	sum.Counters["simulated Lock calls"] += s.Locks
	sum.Counters["blocked-on-mutex events"] += s.Blocked
	sum.Counters["scheduler decisions"] += s.Decisions
	countChans(sum, s)
	if s.PoolGets > 0 {
		sum.Counters["sync.Pool gets under simulator control"] += s.PoolGets
		sum.Counters["sync.Pool gets that reused an object put back earlier"] += s.PoolReuses
	}
	if s.Spawned > 0 {
		sum.Counters["goroutines started by the code under test (became tasks)"] += s.Spawned
	}
	if s.ParkedHolding > 0 {
		sum.Probes["a task was parked while holding Module.mu / Func.mu"]++
	}
	if s.Blocked > 0 {
		sum.Probes["a task found the mutex held by another printer"]++
		if sc.Start == "fresh" {
			sum.Probes["two tasks contended for the first print"]++
		}
		if sc.Start == "stale" {
			sum.Probes["two tasks contended for the renumbering print of an edited module"]++
		}
	}
	if s.Switches >= 10 {
		sum.Probes["run with >= 10 context switches"]++
	}
	if s.StreamOverruns > 0 {
		sum.Probes["tape exhausted before the run ended (tail ran unscheduled)"]++
	}
}

var siteTable []struct {
	ID   int    `json:"id"`
	File string `json:"file"`
	Line int    `json:"line"`
	Func string `json:"func"`
}

func siteName(id int32) string {
	if siteTable == nil && *flagSites != "" {
		if b, err := os.ReadFile(*flagSites); err == nil {
			json.Unmarshal(b, &siteTable)
		}
		if siteTable == nil {
			siteTable = append(siteTable, struct {
				ID   int    `json:"id"`
				File string `json:"file"`
				Line int    `json:"line"`
				Func string `json:"func"`
			}{})
		}
	}
	if id >= 0 && int(id) < len(siteTable) && siteTable[id].File != "" {
		s := siteTable[id]
		return fmt.Sprintf("%s:%d %s", s.File, s.Line, s.Func)
	}
	return fmt.Sprintf("site %d", id)
}

var whyNames = []string{"budget", "lock edge", "unlock edge", "blocked", "task end", "start", "rendezvous on an unbuffered channel"}

func traceStrings(tr []simrt.Switch, max int) []string {
	var out []string
	for i, s := range tr {
		if i >= max {
			out = append(out, fmt.Sprintf("… %d more", len(tr)-max))
			break
		}
		out = append(out, fmt.Sprintf("step %d: task %d -> task %d (%s) after %s", s.Step, s.From, s.To, whyNames[int(s.Why)%len(whyNames)], siteName(s.Site)))
	}
	return out
}

func c13Replay(raw json.RawMessage) *outRec {
	var sc C13Scenario
	if err := json.Unmarshal(raw, &sc); err != nil || sc.Tape == nil || len(sc.Tasks) == 0 {
		return &outRec{T: "note", Class: "harness-error", Detail: "bad C13 scenario"}
	}
	o := c13Run(&sc)
	if o.skip != "" {
		return &outRec{T: "note", Class: "skipped", Detail: o.skip}
	}
	if o.class == "" {
		return nil
	}
	return &outRec{T: "fail", Property: "C13", Class: o.class, Sig: o.sig, Detail: o.detail, Replay: &sc,
		Extra: map[string]interface{}{"trace": traceStrings(o.trace, 60)}}
}

// shrinkStream proposes shorter / simpler versions of a decision stream.
func shrinkStream(v []uint32) [][]uint32 {
	var out [][]uint32
	n := len(v)
	if n == 0 {
		return nil
	}
	out = append(out, nil, v[:n/2], v[:n-1])
	// delete chunks
	for sz := n / 2; sz >= 1; sz /= 2 {
		for i := 0; i+sz <= n && len(out) < 40; i += sz {
			c := append(append([]uint32{}, v[:i]...), v[i+sz:]...)
			out = append(out, c)
		}
		if sz == 1 {
			break
		}
	}
	// zero entries
	for i := 0; i < n && len(out) < 60; i++ {
		if v[i] != 0 {
			c := append([]uint32{}, v...)
			c[i] = 0
			out = append(out, c)
		}
	}
	return out
}

func c13Candidates(raw json.RawMessage) []interface{} {
	var sc C13Scenario
	if json.Unmarshal(raw, &sc) != nil || sc.Tape == nil {
		return nil
	}
	var out []interface{}
	clone := func() *C13Scenario {
		b, _ := json.Marshal(&sc)
		var c C13Scenario
		json.Unmarshal(b, &c)
		return &c
	}
	// Fewer tasks.
	if len(sc.Tasks) > 2 {
		for i := range sc.Tasks {
			c := clone()
			c.Tasks = append(c.Tasks[:i:i], c.Tasks[i+1:]...)
			out = append(out, c)
		}
	}
	// Fewer calls per task.
	for i := range sc.Tasks {
		if len(sc.Tasks[i]) > 1 {
			for j := range sc.Tasks[i] {
				c := clone()
				if sc.Start != "printed" && sc.Start != "locals-stale" {
					// keep all tasks identical
					for t := range c.Tasks {
						if j < len(c.Tasks[t]) && len(c.Tasks[t]) > 1 {
							c.Tasks[t] = append(c.Tasks[t][:j:j], c.Tasks[t][j+1:]...)
						}
					}
				} else {
					c.Tasks[i] = append(c.Tasks[i][:j:j], c.Tasks[i][j+1:]...)
				}
				out = append(out, c)
			}
		}
	}
	// A smaller module.
	var small []*moduleSource
	for _, s := range moduleSources(1, "quick") {
		if s.Text != "" && len(s.Text) < 300 {
			small = append(small, s)
		}
	}
	sort.Slice(small, func(i, j int) bool { return len(small[i].Text) < len(small[j].Text) })
	for i, s := range small {
		if i >= 4 || s.Name == sc.Module {
			break
		}
		c := clone()
		c.Module = s.Name
		out = append(out, c)
	}
	// Simpler tape.
	for _, g := range shrinkStream(sc.Tape.Gaps) {
		c := clone()
		c.Tape.Gaps = g
		out = append(out, c)
	}
	for _, g := range shrinkStream(sc.Tape.Picks) {
		c := clone()
		c.Tape.Picks = g
		out = append(out, c)
	}
	for _, g := range shrinkStream(sc.Tape.Edges) {
		c := clone()
		c.Tape.Edges = g
		out = append(out, c)
	}
	if len(sc.Tape.Pools) > 0 {
		c := clone()
		c.Tape.Pools = nil
		out = append(out, c)
	}
	return out
}
