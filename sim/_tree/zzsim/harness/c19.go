package main

import (
	"encoding/json"
	"errors"
	"fmt"
	"io"
	"sort"
	"strings"
	"time"

	"github.com/llir/llvm/ir"
	"github.com/llir/llvm/ir/enum"
	"github.com/llir/llvm/zzsim/simrt"
)

// C19 — WriteTo honours the io.WriterTo contract, also when the writer fails.
//
// Fault enumeration: for every module and every byte offset k in
// [0, len(String())] a simulated writer accepts exactly k bytes and then fails.

func init() {
	props["C19"] = &propImpl{search: c19Search, replay: c19Replay, candidates: c19Candidates}
}

// C19Step is one WriteTo call.
type C19Step struct {
	K     int    `json:"k"`               // bytes accepted before the failure; -1 = never fail
	Shape string `json:"shape"`           // short: failing Write accepts up to k and returns the error; fullerr: failing Write accepts all of p and returns the error
	Chunk int    `json:"chunk,omitempty"` // >0: a healthy writer that forwards in chunks of this many bytes
	// Kind selects which optional interfaces the writer also implements (code
	// may take another path for them): "" = io.Writer only, "string" =
	// io.StringWriter too, "byte" = io.ByteWriter too, "both", "readfrom" =
	// io.ReaderFrom too (counts bytes read, like bufio.Writer).
	Kind string `json:"kind,omitempty"`
	// Err selects the error value the failing Write returns: "" = a plain
	// errors.New value; "cause-nil" / "cause-other" = a value with a Cause() method
	// (github.com/pkg/errors style) returning nil / another error; "unwrap" = a
	// value with an Unwrap() method. Whatever it is, WriteTo must hand back that
	// very value.
	Err string `json:"err,omitempty"`
}

// stepErr is an error value with optional Cause/Unwrap methods.
type causeErr struct {
	msg   string
	inner error
}

func (e *causeErr) Error() string { return e.msg }
func (e *causeErr) Cause() error  { return e.inner }

// tempErr says it is temporary (net.Error style): still an error the writer
// returned, to be reported, not to be retried behind the caller's back.
type tempErr struct{ msg string }

func (e *tempErr) Error() string   { return e.msg }
func (e *tempErr) Temporary() bool { return true }
func (e *tempErr) Timeout() bool   { return true }

type unwrapErr struct {
	msg   string
	inner error
}

func (e *unwrapErr) Error() string { return e.msg }
func (e *unwrapErr) Unwrap() error { return e.inner }

func injectedError(sc *C19Step) error {
	msg := fmt.Sprintf("injected write error (k=%d)", sc.K)
	switch sc.Err {
	case "cause-nil":
		return &causeErr{msg: msg}
	case "cause-other":
		return &causeErr{msg: msg, inner: io.ErrClosedPipe}
	case "unwrap":
		return &unwrapErr{msg: msg, inner: io.ErrClosedPipe}
	case "temporary":
		return &tempErr{msg: msg}
	}
	return errors.New(msg)
}

// C19Scenario is one episode: a module in a start state and a short sequence
// of WriteTo calls on it, executed in one process from a reset simulator state.
// The history is part of the scenario, so that a failure that depends on what
// an earlier (failed) write left behind replays exactly.
type C19Scenario struct {
	Module string    `json:"module"` // module source name
	Start  string    `json:"start"`  // fresh | printed
	Steps  []C19Step `json:"steps"`
	// Others (with Tape): other modules written by other goroutines at the same
	// time, one WriteTo each, interleaved by the scheduler with Steps[0] on
	// Module. What one writer receives must not depend on what is being printed
	// elsewhere in the process.
	Others []C19Other `json:"others,omitempty"`
	Tape   *Tape      `json:"tape,omitempty"`
	// PermSeed (episodes): non-zero = the map ranges of the printer (named
	// metadata) are visited in seeded orders, a new one for every print of the
	// episode, while the reference text was printed under the canonical order.
	PermSeed uint64 `json:"perm_seed,omitempty"`
}

// C19Other is one concurrent WriteTo on another module.
type C19Other struct {
	Module string  `json:"module"`
	Start  string  `json:"start"`
	Step   C19Step `json:"step"`
}

// simWriter is the simulated io.Writer.
type simWriter struct {
	k       int
	shape   string
	chunk   int
	err     error
	lateErr error

	got        strings.Builder
	failed     bool
	calls      int
	callsAfter int
	bytesAfter int
	faultFired bool
	midWrite   bool // the failure landed strictly inside one Write
	pieces     int
	extraCalls int  // Flush/Sync/Close calls (kind extras)
	silent     bool // shape silent: the short Write has happened, its error is still to come
}

func (w *simWriter) Write(p []byte) (int, error) {
	w.calls++
	if w.failed && w.silent {
		// the call after the silently short one delivers the error
		w.silent = false
		return 0, w.err
	}
	if w.failed {
		w.callsAfter++
		w.bytesAfter += len(p)
		return 0, w.lateErr
	}
	if w.k < 0 || w.got.Len()+len(p) <= w.k {
		// Healthy path; a chunking writer forwards piecewise but accepts all.
		if w.chunk > 0 {
			for i := 0; i < len(p); i += w.chunk {
				j := i + w.chunk
				if j > len(p) {
					j = len(p)
				}
				w.got.Write(p[i:j])
				w.pieces++
			}
		} else {
			w.got.Write(p)
		}
		return len(p), nil
	}
	// This Write crosses offset k.
	w.failed = true
	w.faultFired = true
	room := w.k - w.got.Len()
	if room > 0 {
		w.midWrite = true
	}
	if w.shape == "fullerr" {
		w.got.Write(p)
		return len(p), w.err
	}
	if w.shape == "panic" {
		w.got.Write(p[:room])
		panic(w.err)
	}
	if w.shape == "silent" {
		// Accepts the bytes up to k, says so, but reports no error yet: the error
		// comes with the NEXT call (a writer in front of a full pipe or a quota).
		w.got.Write(p[:room])
		w.failed = true
		w.silent = true
		return room, nil
	}
	w.got.Write(p[:room])
	return room, w.err
}

// Writers that also implement optional interfaces; every method goes through
// the same accounting as Write.
type simWriterS struct{ *simWriter }

func (w simWriterS) WriteString(s string) (int, error) { return w.simWriter.Write([]byte(s)) }

type simWriterB struct{ *simWriter }

func (w simWriterB) WriteByte(c byte) error {
	_, err := w.simWriter.Write([]byte{c})
	return err
}

type simWriterSB struct{ *simWriter }

func (w simWriterSB) WriteString(s string) (int, error) { return w.simWriter.Write([]byte(s)) }
func (w simWriterSB) WriteByte(c byte) error {
	_, err := w.simWriter.Write([]byte{c})
	return err
}

// simWriterRF also implements io.ReaderFrom the way bufio.Writer does: it pulls
// the source through a small buffer into its own Write and reports the number of
// bytes it READ (which is not the number of bytes it accepted when a Write fails).
type simWriterRF struct{ *simWriter }

func (w simWriterRF) ReadFrom(r io.Reader) (int64, error) {
	var n int64
	buf := make([]byte, 512)
	for {
		m, rerr := r.Read(buf)
		n += int64(m)
		if m > 0 {
			if _, werr := w.simWriter.Write(buf[:m]); werr != nil {
				return n, werr
			}
		}
		if rerr == io.EOF {
			return n, nil
		}
		if rerr != nil {
			return n, rerr
		}
	}
}

// simWriterX also has Flush, Sync and Close methods that fail: none of them is
// part of io.Writer, and an error none of the Write calls returned is not
// WriteTo's to report.
type simWriterX struct{ *simWriter }

func (w simWriterX) Flush() error { w.simWriter.extraCalls++; return errors.New("flush failed") }
func (w simWriterX) Sync() error  { w.simWriter.extraCalls++; return errors.New("sync failed") }
func (w simWriterX) Close() error { w.simWriter.extraCalls++; return errors.New("close failed") }

func (w *simWriter) as(kind string) io.Writer {
	switch kind {
	case "extras":
		return simWriterX{w}
	case "readfrom":
		return simWriterRF{w}
	case "nilptr":
		// a nil pointer of a type whose Write method does not need its receiver
		nilPtrSink = w
		return (*nilPtrWriter)(nil)
	case "string":
		return simWriterS{w}
	case "byte":
		return simWriterB{w}
	case "both":
		return simWriterSB{w}
	}
	return w
}

// nilPtrWriter is used through a nil pointer: a legal io.Writer (its Write
// method never touches the receiver), although the interface value holds nil.
type nilPtrWriter struct{ _ int }

var nilPtrSink *simWriter

func (w *nilPtrWriter) Write(p []byte) (int, error) { return nilPtrSink.Write(p) }

type c19Outcome struct {
	class, sig, detail string
	faultFired         bool
	midWrite           bool
}

// c19Run executes one scenario against module m (already in its start state)
// whose sequential text is S.
func c19Run(sc *C19Step, m *ir.Module, S string) *c19Outcome {
	if c19StdKinds[sc.Kind] {
		return c19RunStd(sc, m, S)
	}
	injected := injectedError(sc)
	w := &simWriter{k: sc.K, shape: sc.Shape, chunk: sc.Chunk, err: injected, lateErr: errors.New("late error: Write called after a failed Write")}
	var n int64
	var err error
	var panicked interface{}
	returned := false
	func() {
		defer func() {
			if !returned {
				panicked = recover()
			}
		}()
		n, err = m.WriteTo(w.as(sc.Kind))
		returned = true
	}()
	if sc.Shape == "panic" && w.faultFired {
		// The writer panicked with its error value at offset k: that is not a
		// return, the panic has to reach the caller as it is.
		if returned {
			return &c19Outcome{class: "panic-swallowed", sig: "panic-swallowed", detail: fmt.Sprintf("the writer panicked (with an error value) at offset %d; WriteTo returned n=%d err=%v instead of letting the panic through", sc.K, n, err), faultFired: true}
		}
		if pe, ok := panicked.(error); !ok || pe != injected {
			return &c19Outcome{class: "panic-swallowed", sig: "panic-replaced", detail: fmt.Sprintf("the writer panicked with %v; the caller recovered %v", injected, panicked), faultFired: true}
		}
		// (what the library does with the writer while the panic unwinds - a
		// deferred flush, say - is not covered by the statement, which speaks of
		// writers that RETURN an error)
		return &c19Outcome{faultFired: true, midWrite: w.midWrite}
	}
	if !returned {
		msg := fmt.Sprint(panicked)
		return &c19Outcome{class: "panic", sig: "panic in WriteTo: " + normDigits(clip(msg, 160)), detail: msg}
	}
	out := &c19Outcome{faultFired: w.faultFired, midWrite: w.midWrite}
	got := w.got.String()
	fail := func(class, detail string) *c19Outcome {
		out.class, out.sig, out.detail = class, class, detail
		return out
	}
	if w.callsAfter > 0 {
		return fail("write-after-failure", fmt.Sprintf("%d Write call(s) (%d bytes) after the failing Write at offset %d", w.callsAfter, w.bytesAfter, sc.K))
	}
	if !strings.HasPrefix(S, got) {
		return fail("bytes-not-prefix", fmt.Sprintf("delivered %d bytes that are not a prefix of String(): %s", len(got), firstDiff(got, S[:minInt(len(S), len(got))])))
	}
	if n != int64(len(got)) {
		return fail("count", fmt.Sprintf("WriteTo returned n=%d but the writer accepted %d bytes (k=%d, shape=%s)", n, len(got), sc.K, sc.Shape))
	}
	if w.faultFired && sc.Shape == "silent" && w.silent {
		// the silently short Write was the last call: its error was never delivered
		if err != nil {
			return fail("spurious-error", fmt.Sprintf("no Write returned an error (the last one was short without saying so) but WriteTo returned err=%v", err))
		}
		return out
	}
	if w.faultFired {
		if err != injected {
			return fail("error-lost", fmt.Sprintf("writer failed at offset %d with %q but WriteTo returned err=%v", sc.K, injected, err))
		}
		if sc.Shape == "short" && len(got) != sc.K {
			return fail("bytes-length", fmt.Sprintf("writer accepted %d bytes, expected exactly k=%d", len(got), sc.K))
		}
	} else {
		if err != nil {
			return fail("spurious-error", fmt.Sprintf("writer never failed but WriteTo returned err=%v", err))
		}
		if got != S {
			return fail("bytes-differ", fmt.Sprintf("healthy writer received %d bytes, String() has %d: %s", len(got), len(S), firstDiff(got, S)))
		}
	}
	return out
}

// c19Edit changes an already printed module in place; the numbers of entities,
// parameters, blocks and instructions all stay what they were.
func c19Edit(m *ir.Module) {
	for _, g := range m.Globals {
		if !g.IsUnnamed() {
			g.SetName(g.Name() + ".edited")
			break
		}
	}
	for _, f := range m.Funcs {
		if len(f.Blocks) > 0 {
			if f.Linkage == enum.LinkageNone {
				f.Linkage = enum.LinkageInternal
			}
			for _, p := range f.Params {
				if !p.IsUnnamed() {
					p.SetName(p.Name() + ".e")
					break
				}
			}
			break
		}
	}
	if m.SourceFilename != "" {
		m.SourceFilename += ".edited"
	}
}

// c19Expected: the step in progress is one whose print is expected to panic.
var c19Expected bool

func minInt(a, b int) int {
	if a < b {
		return a
	}
	return b
}

// c19Reference returns the sequential text of a twin of src.
func c19Reference(src *moduleSource) (S string, skip string) {
	simrt.Load((&Tape{}).config())
	simrt.SeamsOn(true, false)
	defer simrt.SeamsOn(false, false)
	pan, _ := protect(func() {
		simCall(func() {
			twin, err := src.Build()
			if err != nil {
				skip = "module rejected by the parser"
				return
			}
			S = twin.String()
			if again := twin.String(); again != S {
				skip = "module text changes between two prints (C14)"
			}
		})
	})
	if pan {
		skip = "String() panics (not C19's business)"
	}
	return S, skip
}

// c19Episode runs the steps of sc on a module built from src and returns the
// outcome of the first failing step (nil if all pass), its index, and per-step
// outcomes for the counters.
func c19Episode(sc *C19Scenario, src *moduleSource, S string) (bad *c19Outcome, badStep int, outs []*c19Outcome, skip string) {
	// Every episode runs as a simulator task (a call that blocks for ever is a
	// deadlock verdict), under a simulated processor count that varies.
	forceTasks = true
	etape := &Tape{Procs: []int{1, 2, 4, 16}[(len(sc.Steps)+len(S)+len(sc.Start))%4]}
	if sc.PermSeed != 0 {
		etape.Perms = genTape(newRNG(sc.PermSeed), TapeParams{NPerm: 256}).Perms
	}
	simrt.Load(etape.config())
	simrt.SeamsOn(true, false)
	defer simrt.SeamsOn(false, false)
	crashed, crashMsg := simCallSafe(func() {
		m, err := src.Build()
		if err != nil {
			skip = "module rejected by the parser"
			return
		}
		if sc.Start == "printed" || sc.Start == "edited" {
			if p, _ := protect(func() { _ = m.String() }); p {
				skip = "String() panics (not C19's business)"
				return
			}
		}
		if sc.Start == "edited" {
			// Printed, then edited in place without adding or removing anything
			// (names, a linkage): the reference is what String() says NOW, on this
			// very module — WriteTo and String() must agree at every moment, not
			// only on a module nobody has touched since its last print.
			if p, _ := protect(func() { c19Edit(m); S = m.String() }); p {
				skip = "String() panics (not C19's business)"
				return
			}
		}
		for i := range sc.Steps {
			if sc.Steps[i].Kind == "osfile-panics" && nativeGoroutines {
				outs = append(outs, &c19Outcome{})
				continue
			}
			c19Expected = sc.Steps[i].Kind == "osfile-panics"
			o := c19Run(&sc.Steps[i], m, S)
			c19Expected = false
			outs = append(outs, o)
			if o.class != "" && bad == nil {
				bad, badStep = o, i
				break
			}
		}
	})
	if crashed && c19Expected && bad == nil && skip == "" {
		// the print that was expected to panic did so on a goroutine of the code
		// under test (the process would have died): nothing follows
		c19Expected = false
		skip = "a print of unprintable IR panicked on a goroutine of the code under test (the process would have died)"
	}
	if crashed && bad == nil && skip == "" {
		// The sequential reference print of the same module did not panic.
		bad = &c19Outcome{class: "panic", sig: "panic on a goroutine started by WriteTo", detail: crashMsg}
		badStep = len(outs)
		if badStep >= len(sc.Steps) {
			badStep = len(sc.Steps) - 1
		}
		outs = append(outs, bad)
	}
	return bad, badStep, outs, skip
}

func c19Search() {
	sum := newSummary()
	srcs := moduleSources(*flagSeed, *flagTier)
	distinct := hashSet{}
	thorough := *flagTier == "thorough"
	var unit int64
	mine := func() bool {
		u := unit
		unit++
		return u%shardN == shardI
	}
	failures := 0
	const episodeLen = 8
	for _, src := range srcs {
		if failures >= *flagMaxFail || overBudget() {
			break
		}
		S, skipWhy := c19Reference(src)
		if skipWhy != "" {
			sum.Skipped[skipWhy]++
			continue
		}
		runEpisode := func(sc *C19Scenario) {
			curScenario = sc
			bad, badStep, outs, skip := c19Episode(sc, src, S)
			if skip != "" {
				sum.Skipped[skip]++
				return
			}
			sum.Counters["episodes (fresh simulator state, module rebuilt)"]++
			for i, o := range outs {
				st := sc.Steps[i]
				sum.Runs++
				sum.Counters["runs/"+sc.Start]++
				if o.faultFired {
					sum.Counters["fault fired/"+st.Shape]++
					if o.midWrite {
						sum.Counters["fault landed inside a Write"]++
					} else {
						sum.Counters["fault landed on a Write boundary"]++
					}
					if i+1 < len(outs) {
						sum.Counters["writes that followed a failed write in the same process"]++
					}
				} else if st.Chunk > 0 {
					sum.Counters["healthy chunking writer"]++
				} else {
					sum.Counters["healthy writer"]++
				}
				distinct.add(hash64(sc.Module, sc.Start, st.Shape, fmt.Sprint(st.K), fmt.Sprint(st.Chunk), st.Kind))
				if c19StdKinds[st.Kind] {
					sum.Counters["writes into a standard-library destination or a re-entrant writer/"+st.Kind]++
				} else if st.Kind != "" {
					sum.Counters["writes into a writer that also implements io."+map[string]string{"string": "StringWriter", "byte": "ByteWriter", "both": "StringWriter and io.ByteWriter", "readfrom": "ReaderFrom", "extras": "failing Flush/Sync/Close methods", "nilptr": "nothing else, and is a nil pointer whose Write needs no receiver"}[st.Kind]]++
				}
			}
			if len(sum.Samples) < 4 && sum.Counters["episodes (fresh simulator state, module rebuilt)"]%131 == 1 {
				sum.Samples = append(sum.Samples, sc)
			}
			if bad != nil {
				failures++
				sum.Failures++
				cut := *sc
				cut.Steps = sc.Steps[:badStep+1]
				bad.detail = fmt.Sprintf("step %d of the episode (%+v): %s", badStep, sc.Steps[badStep], bad.detail)
				emit(outRec{T: "fail", Property: "C19", Seed: *flagSeed, Class: bad.class, Sig: bad.sig, Detail: bad.detail, Replay: &cut})
			}
		}
		// Healthy writers.
		if mine() {
			runEpisode(&C19Scenario{Module: src.Name, Start: "printed", Steps: []C19Step{{K: -1, Shape: "short"}, {K: -1, Shape: "short", Chunk: 1}, {K: -1, Shape: "short", Chunk: 7}, {K: -1, Shape: "short", Chunk: 64}, {K: -1, Shape: "short", Kind: "extras"}, {K: -1, Shape: "short", Kind: "readfrom"}, {K: -1, Shape: "short", Kind: "nilptr"}}})
		}
		if mine() && len(S) > 0 {
			// printed, edited in place, then written: healthy, failing at seeded
			// offsets, healthy again (the reference is String() of the edited module)
			r := newRNG(derive(*flagSeed, "C19edited/"+src.Name))
			sc := &C19Scenario{Module: src.Name, Start: "edited", PermSeed: r.u64() | 1, Steps: []C19Step{{K: -1, Shape: "short"}}}
			for i := 0; i < 4; i++ {
				sc.Steps = append(sc.Steps, C19Step{K: r.intn(len(S) + 1), Shape: []string{"short", "fullerr"}[r.intn(2)], Kind: []string{"", "string", "nilptr"}[r.intn(3)]})
			}
			sc.Steps = append(sc.Steps, C19Step{K: -1, Shape: "short", Chunk: 5})
			runEpisode(sc)
			sum.Counters["episodes on a module printed, edited in place and written (reference: its String() after the edit)"]++
		}
		if mine() {
			runEpisode(&C19Scenario{Module: src.Name, Start: "fresh", Steps: []C19Step{{K: -1, Shape: "short"}, {K: -1, Shape: "short"}}})
		}
		// Destinations that are real standard-library writers, healthy and failing,
		// and a writer that asks the module for its text while it is being written.
		if mine() {
			runEpisode(&C19Scenario{Module: src.Name, Start: []string{"printed", "fresh"}[unit%2], Steps: []C19Step{
				{K: -1, Kind: "osfile-ok"}, {K: -1, Kind: "osfile-closed"}, {K: -1, Kind: "osfile-rdonly"}, {K: -1, Kind: "osfile-devfull"}, {K: -1, Kind: "ospipe-closed"},
				{K: -1, Kind: "osfile-panics"}, {K: -1, Kind: "osfile-ok"}, {K: -1, Kind: "discard"}, {K: -1, Kind: "bytesbuffer"}, {K: -1, Kind: "stringsbuilder"}, {K: -1, Kind: "bytesbuffer-used"}, {K: -1, Kind: "stringsbuilder-used"}, {K: -1, Kind: "iopipe"}, {K: -1, Kind: "bufio"}, {K: -1, Kind: "multi"}, {K: -1, Kind: "reentrant"}, {K: -1, Shape: "short"}}})
		}
		{
			r := newRNG(derive(*flagSeed, "C19std/"+src.Name))
			nstd := 2
			if thorough {
				nstd = 12
			}
			for e := 0; e < nstd && len(S) > 0; e++ {
				sc := &C19Scenario{Module: src.Name, Start: []string{"printed", "printed", "fresh"}[r.intn(3)]}
				for i := 0; i < episodeLen-1; i++ {
					sc.Steps = append(sc.Steps, C19Step{K: r.intn(len(S) + 1), Shape: "short", Kind: []string{"iopipe", "bufio", "multi", "reentrant", "iopipe", "bufio"}[r.intn(6)], Err: []string{"", "", "cause-nil", "cause-other", "unwrap", "temporary"}[r.intn(6)]})
				}
				sc.Steps = append(sc.Steps, C19Step{K: -1, Shape: "short"})
				if mine() {
					runEpisode(sc)
				}
			}
		}
		full := thorough || len(S) <= 4096
		shapes := []string{"short"}
		if thorough {
			shapes = []string{"short", "fullerr"}
		}
		if full {
			for _, shape := range shapes {
				for k0 := 0; k0 <= len(S) && failures < *flagMaxFail; k0 += episodeLen {
					if !mine() {
						continue
					}
					sc := &C19Scenario{Module: src.Name, Start: "printed"}
					// From the never-printed state: a sample in quick, every episode of small modules in thorough.
					if (thorough && len(S) <= 16384 && (k0/episodeLen)%2 == 1) || (k0/episodeLen)%13 == 5 {
						sc.Start = "fresh"
					}
					kind := []string{"", "string", "byte", "both", "readfrom", "extras", "nilptr"}[(k0/episodeLen)%7]
					if !thorough && (k0/episodeLen)%3 != 0 {
						kind = "" // quick: most episodes use the plain writer
					}
					for k := k0; k < k0+episodeLen && k <= len(S); k++ {
						st := C19Step{K: k, Shape: shape, Kind: kind, Err: []string{"", "", "cause-nil", "cause-other", "unwrap", "temporary"}[(k/episodeLen+k)%6]}
						if k%11 == 7 {
							// the writer panics with its error value instead of returning it
							st.Shape = "panic"
						}
						if k%11 == 3 {
							// short write now, error with the next call
							st.Shape = "silent"
						}
						sc.Steps = append(sc.Steps, st)
					}
					// A healthy write after the failures: what a failed write left behind must not leak into it.
					sc.Steps = append(sc.Steps, C19Step{K: -1, Shape: "short"})
					if (k0/episodeLen)%4 == 1 {
						sc.PermSeed = derive(*flagSeed, fmt.Sprintf("C19perm/%s/%d", src.Name, k0)) | 1
						sum.Counters["episodes under seeded map-iteration orders (reference under the canonical order)"]++
					}
					runEpisode(sc)
				}
			}
			if shardI == 0 {
				sum.Counters["modules enumerated at every offset"]++
			}
		} else {
			// Seeded sample of offsets for big modules (quick tier only).
			r := newRNG(derive(*flagSeed, "C19/"+src.Name))
			for e := 0; e < 40 && failures < *flagMaxFail; e++ {
				sc := &C19Scenario{Module: src.Name, Start: "printed"}
				for i := 0; i < episodeLen-1; i++ {
					sc.Steps = append(sc.Steps, C19Step{K: r.intn(len(S) + 1), Shape: []string{"short", "fullerr"}[r.intn(2)], Kind: []string{"", "", "string", "byte", "both", "readfrom", "extras", "nilptr"}[r.intn(8)], Err: []string{"", "", "cause-nil", "cause-other", "unwrap", "temporary"}[r.intn(6)]})
				}
				sc.Steps = append(sc.Steps, C19Step{K: -1, Shape: "short"})
				if !mine() {
					continue
				}
				runEpisode(sc)
			}
			// ... and, deliberately, the ends of the longest lines: a line is what one
			// formatting call hands to the writer, and the newline behind a very long
			// line may travel separately from it.
			{
				type ln struct{ end, length int }
				var lines []ln
				start := 0
				for i := 0; i < len(S); i++ {
					if S[i] == '\n' {
						lines = append(lines, ln{i, i - start})
						start = i + 1
					}
				}
				sort.Slice(lines, func(i, j int) bool {
					if lines[i].length != lines[j].length {
						return lines[i].length > lines[j].length
					}
					return lines[i].end < lines[j].end
				})
				if len(lines) > 5 {
					lines = lines[:5]
				}
				sc := &C19Scenario{Module: src.Name, Start: "printed"}
				for _, l := range lines {
					for _, k := range []int{l.end - 1, l.end, l.end + 1} {
						if k >= 0 && k <= len(S) {
							sc.Steps = append(sc.Steps, C19Step{K: k, Shape: "short", Err: []string{"", "cause-other"}[k%2]})
						}
					}
				}
				sc.Steps = append(sc.Steps, C19Step{K: -1, Shape: "short"})
				if mine() {
					runEpisode(sc)
					sum.Counters["episodes aimed at the ends of the longest lines of a big module"]++
				}
			}
			if shardI == 0 {
				sum.Counters["modules sampled"]++
			}
		}
	}
	// Concurrent phase: WriteTo calls on DIFFERENT modules at the same time
	// (seeded; the per-offset enumeration above is sequential).
	if failures < *flagMaxFail && !overBudget() {
		var small []*moduleSource
		lens := map[string]int{}
		for _, src := range srcs {
			if S, why := c19Reference(src); why == "" && len(S) > 0 && len(S) <= 6000 {
				small = append(small, src)
				lens[src.Name] = len(S)
			}
		}
		nconc := int64(480)
		if thorough {
			nconc = 48000
		}
		for idx := int64(0); idx < nconc && len(small) >= 2 && failures < *flagMaxFail && !overBudget(); idx++ {
			if idx%shardN != shardI {
				continue
			}
			r := newRNG(derive(*flagSeed, fmt.Sprintf("C19conc/%d", idx)))
			pick := func() (string, string, C19Step) {
				src := small[r.intn(len(small))]
				st := C19Step{K: -1, Shape: "short"}
				if r.chance(1, 2) {
					st = C19Step{K: r.intn(lens[src.Name] + 1), Shape: []string{"short", "fullerr"}[r.intn(2)]}
				}
				st.Kind = []string{"", "", "string", "byte", "both", "readfrom"}[r.intn(6)]
				return src.Name, []string{"printed", "fresh"}[r.intn(2)], st
			}
			sc := &C19Scenario{}
			var st C19Step
			sc.Module, sc.Start, st = pick()
			sc.Steps = []C19Step{st}
			sameModule := r.chance(1, 4)
			for i, n := 0, 1+r.intn(2); i < n; i++ {
				m, start, step := pick()
				if sameModule {
					// the same module object, written to another writer at the same time
					m, start = "=", sc.Start
					if step.K > lens[sc.Module] {
						step.K = lens[sc.Module]
					}
					sum.Counters["concurrent WriteTo calls on the SAME module into different writers"]++
				}
				sc.Others = append(sc.Others, C19Other{Module: m, Start: start, Step: step})
			}
			sc.Tape = genTape(r, TapeParams{NSched: 1024, MeanGap: []int{2, 3, 5, 8, 16, 40, 100}[r.intn(7)], EdgePct: []int{0, 30, 100}[r.intn(3)], EarlyPct: 50, NPool: 256})
			sc.Tape.StepCap = 20000000
			curScenario = sc
			bad, who, outs, stats, skip := c19Conc(sc)
			if skip != "" {
				sum.Skipped[skip]++
				continue
			}
			sum.Runs += int64(len(outs))
			sum.Counters["concurrent runs (WriteTo on different modules at the same time)"]++
			sum.Counters["concurrent runs/context switches"] += stats.Switches
			if stats.Switches > 0 {
				distinct.add(stats.TraceHash ^ hash64(sc.Module, fmt.Sprint(sc.Steps[0].K)))
			}
			if bad != nil {
				failures++
				sum.Failures++
				trimTape(sc.Tape, stats)
				emit(outRec{T: "fail", Property: "C19", Seed: *flagSeed, Class: bad.class, Sig: bad.sig + " (while other modules are being written)", Detail: fmt.Sprintf("writer %d of %d concurrent WriteTo calls on different modules: %s", who, 1+len(sc.Others), bad.detail), Replay: sc})
			}
		}
	}
	sum.Exhausted = thorough
	sum.Distinct = distinct.list()
	emit(outRec{T: "summary", Property: "C19", Summary: sum})
}

// c19Conc runs a concurrent scenario: Steps[0] on Module and one step on each of
// Others, as simulator tasks under sc.Tape. It returns the first failing
// outcome (with the index of its task), the outcomes of all tasks, or a reason to skip.
func c19Conc(sc *C19Scenario) (bad *c19Outcome, who int, outs []*c19Outcome, stats simrt.Stats, skip string) {
	type part struct {
		src   *moduleSource
		start string
		step  C19Step
		S     string
		m     *ir.Module
		same  bool
	}
	parts := []*part{{src: findSource(sc.Module), start: sc.Start, step: sc.Steps[0]}}
	for _, o := range sc.Others {
		if o.Module == "=" {
			// the SAME module object as the first writer's, written to a writer of its own
			parts = append(parts, &part{src: parts[0].src, start: parts[0].start, step: o.Step, same: true})
			continue
		}
		parts = append(parts, &part{src: findSource(o.Module), start: o.Start, step: o.Step})
	}
	for _, p := range parts {
		if p.src == nil {
			return nil, 0, nil, stats, "unknown module"
		}
		S, why := c19Reference(p.src)
		if why != "" {
			return nil, 0, nil, stats, why
		}
		p.S = S
	}
	simrt.Load((&Tape{}).config())
	simrt.SeamsOn(true, false)
	defer simrt.SeamsOn(false, false)
	for _, p := range parts {
		p := p
		if p.same {
			p.m = parts[0].m
			continue
		}
		crashed, _ := simCallSafe(func() {
			m, err := p.src.Build()
			if err != nil {
				skip = "module rejected by the parser"
				return
			}
			if p.start == "printed" {
				if pp, _ := protect(func() { _ = m.String() }); pp {
					skip = "String() panics (not C19's business)"
					return
				}
			}
			p.m = m
		})
		if crashed || skip != "" || p.m == nil {
			if skip == "" {
				skip = "module could not be built"
			}
			return nil, 0, nil, stats, skip
		}
	}
	outs = make([]*c19Outcome, len(parts))
	fns := make([]func(), len(parts))
	for i, p := range parts {
		i, p := i, p
		fns[i] = func() { outs[i] = c19Run(&p.step, p.m, p.S) }
	}
	tape := sc.Tape
	if tape == nil {
		tape = &Tape{}
	}
	simrt.Load(tape.configKeep())
	res := simrt.RunTasks(fns, 60*time.Second)
	stats = simrt.Snapshot()
	for i, r := range res {
		if r.Panic != nil && i < len(parts) && outs[i] == nil {
			outs[i] = &c19Outcome{class: "panic", sig: "panic on a goroutine started by WriteTo", detail: fmt.Sprint(r.Panic)}
		}
	}
	for i, o := range outs {
		if o != nil && o.class != "" {
			return o, i, outs, stats, ""
		}
	}
	return nil, 0, outs, stats, ""
}

func c19Replay(raw json.RawMessage) *outRec {
	var sc C19Scenario
	if err := json.Unmarshal(raw, &sc); err != nil || len(sc.Steps) == 0 {
		return &outRec{T: "note", Class: "harness-error", Detail: "bad C19 scenario"}
	}
	if len(sc.Others) > 0 {
		bad, who, _, _, skip := c19Conc(&sc)
		if skip != "" {
			return &outRec{T: "note", Class: "skipped", Detail: skip}
		}
		if bad == nil {
			return nil
		}
		return &outRec{T: "fail", Property: "C19", Class: bad.class, Sig: bad.sig + " (while other modules are being written)", Detail: fmt.Sprintf("writer %d of %d concurrent WriteTo calls on different modules: %s", who, 1+len(sc.Others), bad.detail), Replay: &sc}
	}
	src := findSource(sc.Module)
	if src == nil {
		return &outRec{T: "note", Class: "harness-error", Detail: "unknown module " + sc.Module}
	}
	S, skipWhy := c19Reference(src)
	if skipWhy != "" {
		return &outRec{T: "note", Class: "skipped", Detail: skipWhy}
	}
	bad, badStep, _, skip := c19Episode(&sc, src, S)
	if skip != "" {
		return &outRec{T: "note", Class: "skipped", Detail: skip}
	}
	if bad == nil {
		return nil
	}
	return &outRec{T: "fail", Property: "C19", Class: bad.class, Sig: bad.sig, Detail: fmt.Sprintf("step %d of the episode (%+v): %s", badStep, sc.Steps[badStep], bad.detail), Replay: &sc}
}

func c19Candidates(raw json.RawMessage) []interface{} {
	var sc C19Scenario
	if json.Unmarshal(raw, &sc) != nil || len(sc.Steps) == 0 {
		return nil
	}
	var out []interface{}
	clone := func() *C19Scenario {
		b, _ := json.Marshal(&sc)
		var c C19Scenario
		json.Unmarshal(b, &c)
		return &c
	}
	if len(sc.Others) > 0 {
		for i := range sc.Others {
			if len(sc.Others) > 1 {
				c := clone()
				c.Others = append(c.Others[:i:i], c.Others[i+1:]...)
				out = append(out, c)
			}
		}
		if sc.Tape != nil {
			for _, g := range shrinkStream(sc.Tape.Gaps) {
				c := clone()
				c.Tape.Gaps = g
				out = append(out, c)
			}
			for _, g := range shrinkStream(sc.Tape.Picks) {
				c := clone()
				c.Tape.Picks = g
				out = append(out, c)
			}
		}
		return out
	}
	n := len(sc.Steps)
	// Only the last step; then drop single earlier steps.
	if n > 1 {
		c := clone()
		c.Steps = c.Steps[n-1:]
		out = append(out, c)
		c2 := clone()
		c2.Steps = c2.Steps[n-2:]
		out = append(out, c2)
		for i := 0; i < n-1; i++ {
			c := clone()
			c.Steps = append(c.Steps[:i:i], c.Steps[i+1:]...)
			out = append(out, c)
		}
	}
	if sc.Start != "printed" {
		c := clone()
		c.Start = "printed"
		out = append(out, c)
	}
	last := sc.Steps[n-1]
	mod := func(f func(st *C19Step)) {
		c := clone()
		f(&c.Steps[n-1])
		out = append(out, c)
	}
	if last.Shape != "short" {
		mod(func(st *C19Step) { st.Shape = "short" })
	}
	if last.Chunk != 0 {
		mod(func(st *C19Step) { st.Chunk = 0 })
	}
	if last.Kind != "" {
		mod(func(st *C19Step) { st.Kind = "" })
	}
	if last.K > 0 {
		mod(func(st *C19Step) { st.K = 0 })
		mod(func(st *C19Step) { st.K /= 2 })
		mod(func(st *C19Step) { st.K-- })
	}
	for i := 0; i < n-1; i++ {
		if sc.Steps[i].K > 0 {
			c := clone()
			c.Steps[i].K = 0
			out = append(out, c)
		}
	}
	return out
}
