package main

import (
	"encoding/json"
	"errors"
	"fmt"
	"strings"

	"github.com/llir/llvm/ir"
)

// C19 — WriteTo honours the io.WriterTo contract, also when the writer fails.
//
// Fault enumeration: for every module and every byte offset k in
// [0, len(String())] a simulated writer accepts exactly k bytes and then fails.

func init() {
	props["C19"] = &propImpl{search: c19Search, replay: c19Replay, candidates: c19Candidates}
}

// C19Scenario is one run.
type C19Scenario struct {
	Module string `json:"module"`          // module source name
	Start  string `json:"start"`           // fresh | printed
	K      int    `json:"k"`               // bytes accepted before the failure; -1 = never fail
	Shape  string `json:"shape"`           // short: failing Write accepts up to k and returns the error; fullerr: failing Write accepts all of p and returns the error
	Chunk  int    `json:"chunk,omitempty"` // >0: a healthy writer that forwards in chunks of this many bytes
}

// simWriter is the simulated io.Writer.
type simWriter struct {
	k       int
	shape   string
	chunk   int
	err     error
	lateErr error

	got        strings.Builder
	failed     bool
	calls      int
	callsAfter int
	bytesAfter int
	faultFired bool
	midWrite   bool // the failure landed strictly inside one Write
	pieces     int
}

func (w *simWriter) Write(p []byte) (int, error) {
	w.calls++
	if w.failed {
		w.callsAfter++
		w.bytesAfter += len(p)
		return 0, w.lateErr
	}
	if w.k < 0 || w.got.Len()+len(p) <= w.k {
		// Healthy path; a chunking writer forwards piecewise but accepts all.
		if w.chunk > 0 {
			for i := 0; i < len(p); i += w.chunk {
				j := i + w.chunk
				if j > len(p) {
					j = len(p)
				}
				w.got.Write(p[i:j])
				w.pieces++
			}
		} else {
			w.got.Write(p)
		}
		return len(p), nil
	}
	// This Write crosses offset k.
	w.failed = true
	w.faultFired = true
	room := w.k - w.got.Len()
	if room > 0 {
		w.midWrite = true
	}
	if w.shape == "fullerr" {
		w.got.Write(p)
		return len(p), w.err
	}
	w.got.Write(p[:room])
	return room, w.err
}

type c19Outcome struct {
	class, sig, detail string
	faultFired         bool
	midWrite           bool
}

// c19Run executes one scenario against module m (already in its start state)
// whose sequential text is S.
func c19Run(sc *C19Scenario, m *ir.Module, S string) *c19Outcome {
	injected := errors.New(fmt.Sprintf("injected write error (k=%d)", sc.K))
	w := &simWriter{k: sc.K, shape: sc.Shape, chunk: sc.Chunk, err: injected, lateErr: errors.New("late error: Write called after a failed Write")}
	var n int64
	var err error
	if p, msg := protect(func() { n, err = m.WriteTo(w) }); p {
		return &c19Outcome{class: "panic", sig: "panic in WriteTo: " + normDigits(clip(msg, 160)), detail: msg}
	}
	out := &c19Outcome{faultFired: w.faultFired, midWrite: w.midWrite}
	got := w.got.String()
	fail := func(class, detail string) *c19Outcome {
		out.class, out.sig, out.detail = class, class, detail
		return out
	}
	if w.callsAfter > 0 {
		return fail("write-after-failure", fmt.Sprintf("%d Write call(s) (%d bytes) after the failing Write at offset %d", w.callsAfter, w.bytesAfter, sc.K))
	}
	if !strings.HasPrefix(S, got) {
		return fail("bytes-not-prefix", fmt.Sprintf("delivered %d bytes that are not a prefix of String(): %s", len(got), firstDiff(got, S[:minInt(len(S), len(got))])))
	}
	if n != int64(len(got)) {
		return fail("count", fmt.Sprintf("WriteTo returned n=%d but the writer accepted %d bytes (k=%d, shape=%s)", n, len(got), sc.K, sc.Shape))
	}
	if w.faultFired {
		if err != injected {
			return fail("error-lost", fmt.Sprintf("writer failed at offset %d with %q but WriteTo returned err=%v", sc.K, injected, err))
		}
		if sc.Shape == "short" && len(got) != sc.K {
			return fail("bytes-length", fmt.Sprintf("writer accepted %d bytes, expected exactly k=%d", len(got), sc.K))
		}
	} else {
		if err != nil {
			return fail("spurious-error", fmt.Sprintf("writer never failed but WriteTo returned err=%v", err))
		}
		if got != S {
			return fail("bytes-differ", fmt.Sprintf("healthy writer received %d bytes, String() has %d: %s", len(got), len(S), firstDiff(got, S)))
		}
	}
	return out
}

func minInt(a, b int) int {
	if a < b {
		return a
	}
	return b
}

func c19Search() {
	sum := newSummary()
	srcs := moduleSources(*flagSeed, *flagTier)
	distinct := hashSet{}
	thorough := *flagTier == "thorough"
	var unit int64
	mine := func() bool {
		u := unit
		unit++
		return u%shardN == shardI
	}
	failures := 0
	report := func(sc *C19Scenario, o *c19Outcome) {
		failures++
		sum.Failures++
		emit(outRec{T: "fail", Property: "C19", Seed: *flagSeed, Class: o.class, Sig: o.sig, Detail: o.detail, Replay: sc})
	}
	for _, src := range srcs {
		if failures >= *flagMaxFail || overBudget() {
			break
		}
		twin, err := src.Build()
		if err != nil {
			sum.Skipped["module rejected by the parser"]++
			continue
		}
		var S string
		if p, _ := protect(func() { S = twin.String() }); p {
			sum.Skipped["String() panics (not C19's business)"]++
			continue
		}
		printed, _ := src.Build()
		_ = printed.String()
		full := thorough || len(S) <= 4096
		shapes := []string{"short"}
		if thorough {
			shapes = []string{"short", "fullerr"}
		}
		runOne := func(sc *C19Scenario, m *ir.Module) {
			o := c19Run(sc, m, S)
			sum.Runs++
			sum.Counters["runs/"+sc.Start]++
			if o.faultFired {
				sum.Counters["fault fired/"+sc.Shape]++
				if o.midWrite {
					sum.Counters["fault landed inside a Write"]++
				} else {
					sum.Counters["fault landed on a Write boundary"]++
				}
			} else if sc.Chunk > 0 {
				sum.Counters["healthy chunking writer"]++
			} else {
				sum.Counters["healthy writer"]++
			}
			distinct.add(hash64(sc.Module, sc.Start, sc.Shape, fmt.Sprint(sc.K), fmt.Sprint(sc.Chunk)))
			if o.class != "" {
				report(sc, o)
			}
			if len(sum.Samples) < 4 && sum.Runs%977 == 1 {
				sum.Samples = append(sum.Samples, sc)
			}
		}
		// Healthy writers.
		for _, chunk := range []int{0, 1, 7, 64} {
			if !mine() {
				continue
			}
			runOne(&C19Scenario{Module: src.Name, Start: "printed", K: -1, Shape: "short", Chunk: chunk}, printed)
		}
		if mine() {
			fresh, _ := src.Build()
			runOne(&C19Scenario{Module: src.Name, Start: "fresh", K: -1, Shape: "short"}, fresh)
		}
		// Failing writers: every offset.
		if full {
			for _, shape := range shapes {
				for k := 0; k <= len(S) && failures < *flagMaxFail; k++ {
					if !mine() {
						continue
					}
					runOne(&C19Scenario{Module: src.Name, Start: "printed", K: k, Shape: shape}, printed)
					// From the never-printed state: a sample in quick, every offset in thorough.
					if thorough && len(S) <= 16384 || k%97 == 0 {
						fresh, _ := src.Build()
						runOne(&C19Scenario{Module: src.Name, Start: "fresh", K: k, Shape: shape}, fresh)
					}
				}
			}
			sum.Counters["modules enumerated at every offset"]++
		} else {
			// Seeded sample of offsets for big modules (quick tier only).
			r := newRNG(derive(*flagSeed, "C19/"+src.Name))
			for i := 0; i < 300 && failures < *flagMaxFail; i++ {
				k := r.intn(len(S) + 1)
				shape := []string{"short", "fullerr"}[r.intn(2)]
				if !mine() {
					continue
				}
				runOne(&C19Scenario{Module: src.Name, Start: "printed", K: k, Shape: shape}, printed)
			}
			sum.Counters["modules sampled"]++
		}
		// The printed module must still print the same text, otherwise the
		// comparisons above were against a moving target (that would be C14's
		// finding, not C19's).
		var again string
		if p, _ := protect(func() { again = printed.String() }); p || again != S {
			sum.Skipped["module text changed between prints (C14)"]++
		}
	}
	sum.Exhausted = thorough
	sum.Distinct = distinct.list()
	emit(outRec{T: "summary", Property: "C19", Summary: sum})
}

func c19Replay(raw json.RawMessage) *outRec {
	var sc C19Scenario
	if err := json.Unmarshal(raw, &sc); err != nil {
		return &outRec{T: "note", Class: "harness-error", Detail: err.Error()}
	}
	src := findSource(sc.Module)
	if src == nil {
		return &outRec{T: "note", Class: "harness-error", Detail: "unknown module " + sc.Module}
	}
	twin, err := src.Build()
	if err != nil {
		return &outRec{T: "note", Class: "harness-error", Detail: "module does not parse: " + err.Error()}
	}
	S := twin.String()
	m, _ := src.Build()
	if sc.Start == "printed" {
		_ = m.String()
	}
	o := c19Run(&sc, m, S)
	if o.class == "" {
		return nil
	}
	return &outRec{T: "fail", Property: "C19", Class: o.class, Sig: o.sig, Detail: o.detail, Replay: &sc}
}

func c19Candidates(raw json.RawMessage) []interface{} {
	var sc C19Scenario
	if json.Unmarshal(raw, &sc) != nil {
		return nil
	}
	var out []interface{}
	add := func(f func(c *C19Scenario)) {
		c := sc
		f(&c)
		out = append(out, &c)
	}
	// Smaller modules first (the violation is usually not module specific).
	srcs := moduleSources(1, "quick")
	var best *moduleSource
	for _, s := range srcs {
		if s.Text != "" && s.Name != sc.Module && len(s.Text) < 400 && (best == nil || len(s.Text) < len(best.Text)) {
			best = s
		}
	}
	if best != nil && best.Name != sc.Module {
		add(func(c *C19Scenario) { c.Module = best.Name; c.K = 0 })
		add(func(c *C19Scenario) { c.Module = best.Name; c.K = 1 })
		add(func(c *C19Scenario) { c.Module = best.Name; c.K = len(best.Text) / 2 })
		add(func(c *C19Scenario) { c.Module = best.Name })
	}
	if sc.Start != "printed" {
		add(func(c *C19Scenario) { c.Start = "printed" })
	}
	if sc.Shape != "short" {
		add(func(c *C19Scenario) { c.Shape = "short" })
	}
	if sc.Chunk != 0 {
		add(func(c *C19Scenario) { c.Chunk = 0 })
	}
	if sc.K > 0 {
		add(func(c *C19Scenario) { c.K = 0 })
		add(func(c *C19Scenario) { c.K = c.K / 2 })
		add(func(c *C19Scenario) { c.K = c.K - 1 })
	}
	return out
}
